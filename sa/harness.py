"""Shared abstract-evaluation harnesses: whole-function runs of the dispatch layer with models of its callees.

Several properties look at different facets of the same evaluation (C01 wiring, C04 other_component,
C06 dask-mode table, C10 metric pairing, C19 coordinates), so the harness lives here.
"""
from __future__ import annotations

from .absint import TOP, Evaluator, Obj, Sym, Text, Unmodelled, xr_mapping_arg
from .registry import parse_signature
from .xmodel import COMMON_MODELS, bind_by_position, dimsym, make_da, make_grid


def text_to_str(t):
    """Render a Text/str built from constants and labels; labels print as their names."""
    if isinstance(t, str):
        return t
    if isinstance(t, Sym):
        return t.name
    if isinstance(t, Text):
        return "".join(p if isinstance(p, str) else p.name for p in t.parts)
    return None


def m_from_string(ev, args, kw, node):
    """_GridUFuncSignature.from_string (classmethod: first arg may be the class)."""
    txt = args[-1] if args else kw.get("signature")
    s = text_to_str(txt)
    if s is None:
        raise Unmodelled(f"signature text {txt!r}", node)
    p = parse_signature(s)
    if p is None:
        return Obj("Signature", "malformed", (), {"text": s, "parsed": None, "__isinstance__": ("_GridUFuncSignature",)})
    ins, outs = p
    return Obj("Signature", s, (), {
        "text": s, "parsed": p, "__isinstance__": ("_GridUFuncSignature",), "__class__": "grid_ufunc:_GridUFuncSignature",  # str(), equivalent() ... are the real methods
        "in_ax_names": [tuple(n for n, _ in a) for a in ins], "in_ax_positions": [tuple(q for _, q in a) for a in ins],
        "out_ax_names": [tuple(n for n, _ in a) for a in outs], "out_ax_positions": [tuple(q for _, q in a) for a in outs],
    })


def m_sig_ctor(ev, args, kw, node):
    names = ["in_ax_names", "in_ax_positions", "out_ax_names", "out_ax_positions"]
    b = dict(zip(names, args))
    b.update(kw)

    def norm_names(x):
        return [tuple(text_to_str(n) if isinstance(n, (Sym, Text, str)) else n for n in a) for a in x]

    try:
        ins = [list(zip(a, p)) for a, p in zip(norm_names(b["in_ax_names"]), b["in_ax_positions"])]
        outs = [list(zip(a, p)) for a, p in zip(norm_names(b["out_ax_names"]), b["out_ax_positions"])]
    except Exception:
        raise Unmodelled("signature constructor arguments", node)
    return Obj("Signature", "ctor", (), {"text": None, "parsed": (ins, outs), "__isinstance__": ("_GridUFuncSignature",), "in_ax_names": norm_names(b["in_ax_names"]),
                                       "in_ax_positions": [tuple(p) for p in b["in_ax_positions"]],
                                       "out_ax_names": norm_names(b["out_ax_names"]), "out_ax_positions": [tuple(p) for p in b["out_ax_positions"]]})


def sig_1d(sigobj):
    """(axis name, from, to) of a 1-D signature object, or None."""
    p = sigobj.attrs.get("parsed") if isinstance(sigobj, Obj) else None
    if not p:
        return None
    ins, outs = p
    if len(ins) == 1 and len(outs) == 1 and len(ins[0]) == 1 and len(outs[0]) == 1 and ins[0][0][0] == outs[0][0][0]:
        return ins[0][0][0], ins[0][0][1], outs[0][0][1]
    return None


def m_select(ev, args, kw, node):
    """grid._select_grid_ufunc(funcname, signature, module, **kwargs) -> (GridUFunc, kwargs)"""
    kw = dict(kw)
    names = ["funcname", "signature", "module"]
    b = dict(zip(names, args))
    for n in names:
        if n in kw:
            b[n] = kw.pop(n)
    ev.events.append(("select", b.get("funcname"), b.get("signature"), dict(kw), node))
    uf = Obj("GridUFunc", "selected", (), {"__class__": "grid_ufunc:GridUFunc", "signature": b.get("signature"), "funcname": b.get("funcname")})
    return (uf, kw)


def m_gridufunc_call(ev, args, kw, node):
    """GridUFunc.__call__(self, grid, *args, axis, **kwargs): record and return the shifted array."""
    uf, grid, *data = args
    kw = dict(kw)
    ev.events.append(("ufunc", uf, grid, list(data), kw, node))
    if len(data) != 1:
        return TOP
    arr = data[0]
    base = arr
    if isinstance(arr, dict) and len(arr) == 1:
        (base,) = arr.values()
    if not isinstance(base, Obj):
        return TOP
    s = sig_1d(uf.attrs.get("signature"))
    dims = base.attrs.get("dims")
    new_dims = dims
    if s and isinstance(dims, tuple):
        ax, fr, to = s
        # xarray.apply_ufunc moves the core dimension to the end
        other = tuple(d for d in dims if d != dimsym(ax, fr))
        if getattr(ev, "reorder_noncore", False) and len(other) > 1:
            other = (other[-1],) + other[:-1]  # ... and padding across faces (xr.concat) may bring another dimension to the front
        new_dims = other + (dimsym(ax, to),)
    return base.with_eff(("UFUNC", uf.attrs.get("funcname"), s, kw.get("axis")), dims=new_dims)


def da_attr_models():
    return {
        ("DataArray", "chunks"): lambda ev, o, n: TOP,
        ("DataArray", "data"): lambda ev, o, n: TOP,
        ("DataArray", "name"): lambda ev, o, n: o.attrs.get("name", TOP),
        ("DataArray", "ndim"): lambda ev, o, n: len(o.attrs["dims"]) if "dims" in o.attrs else TOP,
    }


def da_method_models():
    def transpose(ev, recv, args, kw, node):
        dims = recv.attrs.get("dims")
        new = tuple(args) if all(isinstance(a, Sym) for a in args) else dims
        return recv.with_eff(("transpose", tuple(args)), dims=new)

    def copy(ev, recv, args, kw, node):
        return recv.with_eff(("copy", tuple(sorted(kw.items()))))

    return {("DataArray", "transpose"): transpose, ("DataArray", "copy"): copy}


def dispatch_models():
    m = dict(COMMON_MODELS)
    m["grid:_select_grid_ufunc"] = m_select
    m["grid_ufunc:_GridUFuncSignature.from_string"] = m_from_string
    m["grid_ufunc:_GridUFuncSignature"] = m_sig_ctor
    m["grid_ufunc:GridUFunc.__call__"] = m_gridufunc_call
    return m


def run_dispatch(P, funcname="diff", pos=None, to=None, axnames=("AX",), axis_arg=None, dims=None, data_as_vector=False,
                 default_shifts=None, positions=None, kwargs=None, metric_weighted=None, other_component=None, attr_models=None, reorder_noncore=False, per_axis_shifts=None):
    """Evaluate Grid._1d_grid_ufunc_dispatch as a whole.  pos: {axis: position of the data}."""
    from .geometry import POSITIONS

    pos = pos or {a: "center" for a in axnames}
    am = da_attr_models()
    am.update(attr_models or {})
    ev = Evaluator(P, models=dispatch_models(), attr_models=am, method_models=da_method_models())
    ev.reorder_noncore = reorder_noncore
    fi = P.func("grid:Grid._1d_grid_ufunc_dispatch")

    def make():
        g = make_grid(axnames, positions=positions or POSITIONS, default_shifts=default_shifts)
        for a_, sh in (per_axis_shifts or {}).items():  # an Axis has its own table of default shifts
            g.attrs["axes"][Sym(a_)].attrs["_default_shifts"] = dict(g.attrs["axes"][Sym(a_)].attrs["_default_shifts"], **sh)
        dd = dims if dims is not None else [Sym("t")] + [dimsym(a, pos[a]) for a in axnames]
        da = make_da("da", dd, name=Sym("da_name"))
        data = {Sym(axnames[0]): da} if data_as_vector else da
        ax = axis_arg if axis_arg is not None else Sym(axnames[0])
        kws = dict(kwargs) if kwargs is not None else {"boundary": Sym("USER_BOUNDARY"), "fill_value": Sym("USER_FILL")}
        return dict(self=g, funcname=funcname, data=data, axis=ax, to=to, keep_coords=Sym("USER_KEEP"),
                    metric_weighted=metric_weighted, other_component=other_component if other_component is not None else Sym("USER_OTHER"), kwargs=kws)

    return ev.run_paths(fi, make)


# ---------------------------------------------------------------------------------- apply_as_grid_ufunc
def m_apply_ufunc(ev, args, kw, node):
    ev.events.append(("xr.apply_ufunc", list(args), dict(kw), node))
    ocd = kw.get("output_core_dims")
    outs = []
    if isinstance(ocd, (list, tuple)):
        for od in ocd:
            outs.append(Obj("DataArray", "RESULT", (), {"dims": (Sym("t"),) + tuple(od), "__isinstance__": ("DataArray",), "from": list(args[1:])}))
    if not outs:
        return TOP
    return outs[0] if len(outs) == 1 else tuple(outs)


def apply_models(record_rechunk=True):
    m = dict(COMMON_MODELS)
    m["xarray.apply_ufunc"] = m_apply_ufunc
    m["grid_ufunc:_GridUFuncSignature.from_string"] = m_from_string
    m["grid_ufunc:_GridUFuncSignature"] = m_sig_ctor

    def m_map(ev, args, kw, node):
        b = bind_by_position(ev, "grid_ufunc:_map_func_over_core_dims", ["func", "original_args", "grid", "in_core_dims", "boundary_width_real_axes", "out_dtypes"], args, kw)
        ev.events.append(("map_func_over_core_dims", b, node))
        return Obj("func", "mapped_func", (), {"wraps": b.get("func")})

    def m_rechunk(ev, args, kw, node):
        b = bind_by_position(ev, "grid_ufunc:_rechunk_to_merge_in_boundary_chunks", ["padded_args", "original_args", "boundary_width_real_axes", "grid"], args, kw)
        ev.events.append(("rechunk", b, node))
        pa = b.get("padded_args")
        if isinstance(pa, Obj):  # a tree whose helper merges the boundary chunks of one padded array at a time
            return pa.with_eff(("RECHUNK",))
        return [p.with_eff(("RECHUNK",)) if isinstance(p, Obj) else p for p in pa] if isinstance(pa, (list, tuple)) else TOP

    m["grid_ufunc:_map_func_over_core_dims"] = m_map
    if record_rechunk:
        m["grid_ufunc:_rechunk_to_merge_in_boundary_chunks"] = m_rechunk
    return m


def apply_attr_models():
    a = da_attr_models()
    a[("Dataset", "sizes")] = lambda ev, o, n: Obj("sizes", "sizes")
    a[("DataArray", "dtype")] = lambda ev, o, n: Sym("dtype_of_" + o.name)
    return a


def run_apply(P, signature, axis, args=None, boundary_width=None, axnames=("AX", "AY"), positions=None, map_overlap=False,
              pad_before_func=True, other_component=None, grid=None, extra_kwargs=None, func=None, attr_models=None, **over):
    """Evaluate grid_ufunc.apply_as_grid_ufunc as a whole.  `args`: callable returning the tuple of data arguments."""
    am = apply_attr_models()
    am.update(attr_models or {})
    ev = Evaluator(P, models=apply_models(), attr_models=am, method_models=da_method_models())
    fi = P.func("grid_ufunc:apply_as_grid_ufunc")
    import copy

    def make():
        g = grid() if grid is not None else make_grid(axnames, positions=positions) if positions else make_grid(axnames)
        a = args() if args is not None else (make_da("da", [Sym("t")] + [dimsym(x, "center") for x in axnames]),)
        b = dict(func=func or Obj("func", "userfunc"), args=tuple(a), axis=copy.deepcopy(axis), grid=g, signature=signature,
                 boundary_width=copy.deepcopy(boundary_width), boundary=Sym("USER_BOUNDARY"), fill_value=Sym("USER_FILL"),
                 keep_coords=Sym("USER_KEEP"), dask=Sym("USER_DASK"), map_overlap=map_overlap, pad_before_func=pad_before_func,
                 other_component=copy.deepcopy(other_component), kwargs=dict(extra_kwargs or {"extra_option": Sym("USER_EXTRA")}))
        b.update(over)
        return b

    return ev.run_paths(fi, make)


# ------------------------------------------------------------------ what may happen to a computed array on its way back
NEUTRAL_OPS = {"copy", "transpose", "chunk", "unify_chunks", "assign_attrs", "drop_vars", "reset_coords", "reset_index", "drop_indexes", "squeeze",
               "rename", "rename-name", "assign_coords", "swap_dims", "set_index", "pipe", "compute_chunk_sizes"}
VALUE_CHANGING_OPS = {"astype", "fillna", "round", "clip", "where", "mask", "mult", "div", "add", "sub", "rmult", "rdiv", "radd", "rsub", "neg", "abs", "pow", "mod",
                      "cumsum", "cumprod", "isel", "sel", "roll", "shift", "pad", "interp", "interp_like", "mean", "sum", "min", "max", "prod", "std", "var", "median",
                      "dropna", "ffill", "bfill", "sortby", "reindex", "reindex_like", "interpolate_na", "diff", "rolling", "coarsen", "rank", "quantile", "conj",
                      "lt", "gt", "lte", "gte", "invert", "getitem", "thin", "head", "tail"}


def foreign_ops(effs, expected=()):
    """Split the operations of a lineage that are neither expected by the rule nor value-neutral into those known to change
    values (a finding) and those this table does not know (no verdict)."""
    changing, unknown = [], []
    for e in effs:
        op = e[0]
        if op in expected or op in NEUTRAL_OPS:
            continue
        (changing if op in VALUE_CHANGING_OPS else unknown).append(op)
    return changing, unknown


# ------------------------------------------------------------------ coordinates carried through xarray's coordinate API
class BecomesDataset(Unmodelled):
    """xarray semantics, not a gap of the model: DataArray.reset_coords(drop=False) returns a Dataset (the coordinates become
    data variables next to the array).  Checks that know what must come out of the expression may report it; everywhere else
    it is a missing verdict like any other Unmodelled."""


def coord_tracking_models():
    """Method / attribute models under which a modelled DataArray carries its coordinates (attrs['coords']: name -> dims,
    an index coordinate being one named like a dimension) through xarray's coordinate API."""
    def names_of(arg):
        if isinstance(arg, dict):
            return list(arg)
        if isinstance(arg, (list, tuple, set, frozenset)):
            return list(arg)
        if isinstance(arg, (Sym, str)):
            return [arg]
        raise Unmodelled(f"coordinate names {arg!r}")

    def coords_of(o):
        return dict(o.attrs.get("coords", {}))

    def reset_coords(ev, recv, args, kw, node):
        if kw.get("drop") is not True and not (len(args) > 1 and args[1] is True):
            raise BecomesDataset("reset_coords without drop=True turns the array into a dataset", node)
        cur = coords_of(recv)
        names = names_of(args[0]) if args and args[0] is not None else [k for k in cur if k not in recv.attrs.get("dims", ())]
        return recv.with_eff(("reset_coords", tuple(args), tuple(sorted(kw.items()))), coords={k: v for k, v in cur.items() if k not in names})

    def reset_index(ev, recv, args, kw, node):
        names = names_of(args[0] if args else kw.get("dims_or_levels"))
        cur = coords_of(recv)
        if kw.get("drop") is True:
            cur = {k: v for k, v in cur.items() if k not in names}
        return recv.with_eff(("reset_index", tuple(args), tuple(sorted(kw.items()))), coords=cur)

    def drop_vars(ev, recv, args, kw, node):
        names = names_of(args[0] if args else kw.get("names"))
        cur = {k: v for k, v in coords_of(recv).items() if k not in names}
        return recv.with_eff(("drop_vars", tuple(names)), coords=cur)

    def copy(ev, recv, args, kw, node):
        return recv.with_eff(("copy",))

    def rename(ev, recv, args, kw, node):
        m = xr_mapping_arg("rename", args, kw)
        if m is None:  # rename("new name") renames the array itself
            return recv.with_eff(("rename", tuple(args), tuple(sorted(kw.items()))), name=args[0])
        dims = tuple(m.get(d, d) for d in recv.attrs.get("dims", ()))
        # renaming a dimension renames the index coordinate of that name with it, and the dimension inside every coordinate
        cur = {m.get(k, k): tuple(m.get(d, d) for d in v) for k, v in coords_of(recv).items()}
        return recv.with_eff(("rename", tuple(args), tuple(sorted(kw.items(), key=lambda kv: str(kv[0])))), dims=dims, coords=cur)

    mm = {("DataArray", "reset_coords"): reset_coords, ("DataArray", "reset_index"): reset_index, ("DataArray", "drop_vars"): drop_vars,
          ("DataArray", "copy"): copy, ("DataArray", "rename"): rename}
    am = {("DataArray", "coords"): lambda ev, o, n: coords_of(o), ("DataArray", "indexes"): lambda ev, o, n: {k: v for k, v in coords_of(o).items() if k in o.attrs.get("dims", ())},
          ("DataArray", "xindexes"): lambda ev, o, n: {k: v for k, v in coords_of(o).items() if k in o.attrs.get("dims", ())}}
    return mm, am




def applied_function(a0, ufunc_kwargs):
    """The function xr.apply_ufunc is applied to and the keyword arguments it will be called with: either
    apply_ufunc(f, ..., kwargs={...}) or apply_ufunc(functools.partial(f, **{...}), ...) (which is what apply_ufunc does itself)."""
    from .absint import PartialV

    kk = dict(ufunc_kwargs.get("kwargs") or {})
    if isinstance(a0, PartialV) and a0.kind == "partial":
        if a0.args:
            raise Unmodelled("functools.partial with positional arguments as the applied function")
        inner, more = applied_function(a0.f, {"kwargs": a0.kwargs})
        more.update(kk)
        return inner, more
    return a0, kk


# ------------------------------------------------------------------ numba.guvectorize(ftylist, signature, **kws)
def guvectorize_contract(fi):
    """Problems with the @guvectorize decoration of a kernel: numba takes the list of type tuples first and the layout
    string second, one type and one layout group per parameter of the function, output core dimensions among the input
    ones.  A decoration that breaks this fails when the module is imported, i.e. every transform fails."""
    import ast
    import re as _re

    deco = [d for d in fi.node.decorator_list if isinstance(d, ast.Call) and (getattr(d.func, "id", None) == "guvectorize" or getattr(d.func, "attr", None) == "guvectorize")]
    if len(deco) != 1:
        return None, [f"{len(deco)} guvectorize decorations"]
    d = deco[0]
    kw = {k.arg: k.value for k in d.keywords}
    types = d.args[0] if len(d.args) > 0 else kw.get("ftylist")
    layout = d.args[1] if len(d.args) > 1 else kw.get("signature")
    params = [a.arg for a in fi.node.args.posonlyargs + fi.node.args.args]
    problems = []
    if not (isinstance(layout, ast.Constant) and isinstance(layout.value, str)):
        return None, ["the layout string (second argument of guvectorize) is " + (ast.unparse(layout)[:40] if layout is not None else "missing")]
    if not isinstance(types, (ast.List, ast.Tuple)):
        problems.append("the list of type signatures (first argument of guvectorize) is " + (ast.unparse(types)[:40] if types is not None else "missing"))
    text = layout.value.replace(" ", "")
    if text.count("->") != 1:
        return None, problems + [f"layout {layout.value!r} has no single '->'"]
    ins, outs = (_re.findall(r"\(([^()]*)\)", side) for side in text.split("->"))
    if len(ins) + len(outs) != len(params):
        problems.append(f"layout {layout.value!r} describes {len(ins)} inputs and {len(outs)} outputs, the function has {len(params)} parameters")
    if isinstance(types, (ast.List, ast.Tuple)):
        for t in types.elts:
            if not isinstance(t, ast.Tuple) or len(t.elts) != len(params):
                problems.append(f"type signature {ast.unparse(t)[:60]} does not give one type per parameter ({len(params)})")
                break
    in_names = {n for g in ins for n in g.split(",") if n}
    for g in outs:
        for n in g.split(","):
            if n and n not in in_names:
                problems.append(f"output core dimension {n!r} does not occur among the inputs of the layout")
    return (ins, outs), problems


# ------------------------------------------------------------------ drivers: short call sequences interpreted like the code
def driver(module: str, src: str):
    """FuncInfo of an ad-hoc function whose names resolve in `module` of the package: lets a rule state a *sequence* of calls
    (state shared between calls shows) and have it interpreted by the same evaluator, forks and all."""
    import ast

    from .core import FuncInfo

    node = ast.parse(src).body[0]
    return FuncInfo(f"{module}:{node.name}", module, node, None, None)
