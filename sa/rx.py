"""Regular-language engine for the signature grammar (DESIGN 3.8).

Patterns (the regex *constants* folded from the source) are parsed with the standard library's regex parser
(`re._parser`, a parser only - nothing of the analysed package is executed), translated to NFAs over an abstract
alphabet and determinised.  Language inclusion is decided on the product automaton, with shortest witnesses.
Supported: literals, \\w, classes of these, groups, alternation, * + ? {m,n}, ^, $, \\Z.  Anything else raises
Unsupported (the rule is then inconclusive).
"""
from __future__ import annotations

import collections
import re
import re._constants as sc
import re._parser as sp


class Unsupported(Exception):
    pass


def make_alphabet(extra_letters=""):
    letters = sorted(set("centerleftrightinnerouter" + extra_letters))
    # W = any other word character, ! = any other non-word character
    return letters + ["W", "(", ")", ",", ":", "-", ">", " ", "\n", "!"], set(letters)


ALPH, LETTERS = make_alphabet()


def classify(ch: str) -> str:
    if ch in ALPH and ch not in ("W", "!"):
        return ch
    return "W" if re.match(r"\w", ch) else "!"


def _in_matches(sym, items):
    neg = False
    ok = False
    for op, av in items:
        if op is sc.NEGATE:
            neg = True
        elif op is sc.LITERAL:
            ok |= sym == classify(chr(av)) and (classify(chr(av)) not in ("W", "!"))
            if classify(chr(av)) in ("W", "!"):
                raise Unsupported(f"class with a literal outside the abstract alphabet: {chr(av)!r}")
        elif op is sc.CATEGORY:
            if av is sc.CATEGORY_WORD:
                ok |= sym in LETTERS or sym == "W"
            elif av is sc.CATEGORY_NOT_WORD:
                ok |= not (sym in LETTERS or sym == "W")
            elif av is sc.CATEGORY_SPACE:
                ok |= sym in (" ", "\n")
            else:
                raise Unsupported(f"category {av}")
        elif op is sc.RANGE:
            raise Unsupported("character range")
        else:
            raise Unsupported(str(op))
    return ok != neg


class NFA:
    def __init__(self):
        self.n = 0
        self.eps = collections.defaultdict(set)
        self.tr = collections.defaultdict(set)
        self.end_only = set()  # states from which acceptance requires end of input (\Z) - handled by construction

    def new(self):
        self.n += 1
        return self.n - 1


def _build(nfa: NFA, items, start, dollar_newline=True):
    cur = start
    for op, av in items:
        if op is sc.LITERAL:
            nx = nfa.new()
            s = classify(chr(av))
            nfa.tr[(cur, s)].add(nx)
            cur = nx
        elif op is sc.NOT_LITERAL:
            nx = nfa.new()
            s = classify(chr(av))
            if s in ("W", "!"):
                raise Unsupported("negated literal outside the alphabet")
            for a in ALPH:
                if a != s:
                    nfa.tr[(cur, a)].add(nx)
            cur = nx
        elif op is sc.ANY:
            nx = nfa.new()
            for a in ALPH:
                if a != "\n":
                    nfa.tr[(cur, a)].add(nx)
            cur = nx
        elif op is sc.IN:
            nx = nfa.new()
            for a in ALPH:
                if _in_matches(a, av):
                    nfa.tr[(cur, a)].add(nx)
            cur = nx
        elif op is sc.SUBPATTERN:
            cur = _build(nfa, av[3], cur)
        elif op is sc.BRANCH:
            nx = nfa.new()
            for alt in av[1]:
                s0 = nfa.new()
                nfa.eps[cur].add(s0)
                e = _build(nfa, alt, s0)
                nfa.eps[e].add(nx)
            cur = nx
        elif op in (sc.MAX_REPEAT, sc.MIN_REPEAT):
            lo, hi, sub = av
            for _ in range(lo):
                cur = _build(nfa, sub, cur)
            if hi is sc.MAXREPEAT:
                loop = nfa.new()
                nfa.eps[cur].add(loop)
                e = _build(nfa, sub, loop)
                nfa.eps[e].add(loop)
                cur = loop
            else:
                for _ in range(hi - lo):
                    nx = nfa.new()
                    e = _build(nfa, sub, cur)
                    nfa.eps[cur].add(nx)
                    nfa.eps[e].add(nx)
                    cur = nx
        elif op is sc.AT:
            if av is sc.AT_BEGINNING or av is sc.AT_BEGINNING_STRING:
                if cur != start:
                    raise Unsupported("^ not at the start")
            elif av is sc.AT_END:
                # `$`: end of string, or just before a final newline
                nx = nfa.new()
                nfa.eps[cur].add(nx)
                nfa.tr[(cur, "\n")].add(nx)
                cur = nx
                nfa.end_only.add(cur)
            elif av is sc.AT_END_STRING:
                nfa.end_only.add(cur)
            else:
                raise Unsupported(f"anchor {av}")
        else:
            raise Unsupported(str(op))
    return cur


class DFA:
    def __init__(self, start, trans, accept):
        self.start, self.trans, self.accept = start, trans, accept

    def run(self, text: str) -> bool:
        s = self.start
        for ch in text:
            s = self.trans[s][classify(ch)]
        return s in self.accept

    def n_states(self):
        return len(self.trans)


def compile_pattern(pat: str, mode: str = "fullmatch") -> DFA:
    """mode: 'fullmatch' (whole string), 'match' (anchored at the start, may stop early), 'search' (anywhere)."""
    nfa = NFA()
    s = nfa.new()
    tree = list(sp.parse(pat))
    start = s
    if mode == "search":
        # any prefix
        for a in ALPH:
            nfa.tr[(s, a)].add(s)
    e = _build(nfa, tree, start)
    tail = None
    if mode in ("match", "search") and e not in nfa.end_only:
        tail = nfa.new()
        nfa.eps[e].add(tail)
        for a in ALPH:
            nfa.tr[(tail, a)].add(tail)
        e = tail
    accepts = {e}

    def clo(S):
        st = list(S)
        S = set(S)
        while st:
            q = st.pop()
            for r in nfa.eps[q]:
                if r not in S:
                    S.add(r)
                    st.append(r)
        return frozenset(S)

    s0 = clo({start})
    D = {s0: {}}
    work = [s0]
    while work:
        S = work.pop()
        for a in ALPH:
            T = set()
            for q in S:
                T |= nfa.tr[(q, a)]
            T = clo(T)
            D[S][a] = T
            if T not in D:
                D[T] = {}
                work.append(T)
    acc = {S for S in D if S & accepts}
    return DFA(s0, D, acc)


def difference_witnesses(A: DFA, B: DFA, limit=6):
    """Shortest strings accepted by A and not by B (abstract letters rendered as characters)."""
    seen = {(A.start, B.start): ""}
    q = collections.deque([(A.start, B.start)])
    out = []
    while q and len(out) < limit:
        a, b = q.popleft()
        w = seen[(a, b)]
        if a in A.accept and b not in B.accept:
            out.append(w)
        for s in ALPH:
            na, nb = A.trans[a][s], B.trans[b][s]
            if not na:
                continue
            if (na, nb) not in seen:
                ch = {"W": "Z", "!": "#"}.get(s, s)
                seen[(na, nb)] = w + ch
                q.append((na, nb))
    return out


def spec_signature_pattern() -> str:
    """The grammar of the property statement, written independently of the code under analysis:
    two sides of '->', each a comma-separated non-empty list of parenthesised, comma-separated (possibly empty)
    lists of name:position pairs."""
    name = r"\w+"
    pos = "(?:center|left|right|inner|outer)"
    pair = f"{name}:{pos}"
    arg = rf"\((?:{pair}(?:,{pair})*)?\)"
    al = f"{arg}(?:,{arg})*"
    return f"{al}->{al}"
